"""C03 - the verifier decides exactly the protocol's equation and transcript.

1. MC  TranscriptMC : the transcript design (prover list = verifier list,
       legacy quirk, binds-before for 26 proof fields x 11 challenges); the
       run also exports Transcript!VerifierItems as data.
2. MC  ProtocolMC   : over F_97 the grouped verifier scalar map equals the
       textbook expansion z W_z + u z w W_zw + F - E, and D + r_0 is the
       linearisation of the protocol's identity (exhaustive in two
       coordinates at a time, the rest from a seeded vector).
3. Binding 1: specification-driven reference verifier (no hooks). The harness
       only parses bytes, runs merlin from the exported item list and does
       MSM + pairing; TLC (TraceVerifier = Protocol!VerifierScalars over the
       real field) supplies every scalar. Its verdict must equal
       Verifier::verify_with_version on every triple.
4. Binding 2 (transcript trace hook): the operations the real verifier (every
       triple that reaches verify_with_version) and the real prover (honest
       proofs; compilation) perform on their transcripts - kind, label,
       payload bytes, squeezed challenges - equal EXACTLY the operations of
       Transcript!VerifierItems / ProverItems executed on the same data, and
       prover and verifier squeeze the same challenges.
"""
import collections
import json
import os
import random

import vlib

PID = "C03"


def _pmc_params(tier, path):
    r = random.Random(vlib.seed())
    base = [r.randrange(0, 97) for _ in range(41)]
    ring = [(i, i % 41 + 1) for i in range(1, 42)]
    allp = [(i, j) for i in range(1, 42) for j in range(i + 1, 42)]
    if tier == "quick":
        # every coordinate occurs; the V1 layout for pairs around the opening challenges
        chosen = [ring[k] for k in range(0, 41, 6)] + [(23, 24), (24, 26)]
        r.shuffle(allp)
        chosen += allp[:2]
        v1 = [(24, 25), (12, 24)]
    else:
        r.shuffle(allp)
        chosen = ring + allp[:80]
        v1 = [(24, k) for k in (1, 5, 12, 13, 14, 15, 23, 25, 26)] + allp[80:90]
    pairs = []
    for k, (i, j) in enumerate(chosen):
        pairs.append([i, j, 3, 8 if k % 3 else 4])
    for k, (i, j) in enumerate(v1):
        pairs.append([i, j, 1, 8 if k % 2 else 4])
    json.dump({"base": base, "pairs": pairs, "pirows": [0, 2]}, open(path, "w"))
    return base, pairs


def _scalars_from_tlc(out, path):
    n = 0
    ids = set()
    with open(path, "w") as f:
        for l in out.splitlines():
            if l.startswith('"{') and "SCALARS" in l:
                d = json.loads(json.loads(l))
                ids.add(d["id"])
                f.write(json.dumps(d, separators=(",", ":")) + "\n")
                n += 1
    return n, ids


def _conformance(ck, d, items, workers, timeout):
    """events -> TLC -> judge over the tables in directory d; returns results."""
    n_events = sum(1 for _ in open(os.path.join(d, "events.ndjson")))
    tv = vlib.tlc("TraceVerifier", workers=workers, timeout=timeout, heap="12g",
                  env={"TRACE": os.path.join(d, "events.ndjson")})
    if tv.violated:
        raise vlib.ToolError("TraceVerifier did not consume the whole trace:\n" + tv.out[-3000:])
    ck.add_tlc(tv, "TraceVerifier", {"field": "BLS12-381 scalar field", "events": n_events},
               exhaustive=False)
    n, ids = _scalars_from_tlc(tv.out, os.path.join(d, "scalars.ndjson"))
    if n != n_events or len(ids) != n_events:
        raise vlib.ToolError("TraceVerifier judged %d of %d events" % (n, n_events))
    out = vlib.harness("refverify", ["judge", "--dir", d, "--items", items], timeout=timeout)
    return vlib.read_ndjson_text(out), n_events


def _account(ck, results):
    by = collections.Counter()
    for r in results:
        cls = "accept" if r["real"] == "accept" else r["real"].split(":")[0]
        key = {"family": r["family"], "kind": r["kind"], "version": r["version"],
               "real": r["real"], "ref": r["ref"]}
        trivial = r.get("same_as_base", False)
        ck.case({"id": r["id"], **key}, nontrivial=not trivial)
        by[(r["kind"], r["version"], cls)] += 1
        if not r["agree"]:
            what = ("reference verifier and Verifier::verify_with_version disagree on a %s triple "
                    "(family %s, verification version %s): implementation says %s, specification says %s"
                    % (r["kind"], r["family"], r["version"], r["real"], r["ref"]))
            ck.violation(what, {"key": {"site": "verify_with_version", "kind": r["kind"],
                                        "version": r["version"], "real": r["real"].split(":")[0],
                                        "ref": r["ref"].split(":")[0]},
                                "triple": r.get("replay"), "result": r})
    return by


def _account_transcripts(ck, d, results, site=None):
    """Binding 2: the transcript operations recorded by the implementation
    (trace hook) equal, exactly, what the exported item list performs."""
    seen = {}
    n_cmp = 0
    for r in results:
        tr = r.get("tr") or {}
        if tr.get("compared"):
            n_cmp += 1
        if tr.get("ok", True):
            continue
        diff = tr.get("diff") or {}
        key = {"site": "verify-transcript", "phase": tr.get("phase"), "version": r["version"],
               "at": diff.get("at"), "label": diff.get("label")}
        if site:
            key = {"site": site, "what": "verify-transcript", "program": r["family"],
                   "at": diff.get("at"), "label": diff.get("label")}
        k = json.dumps(key, sort_keys=True)
        if k in seen:
            seen[k] += 1
            continue
        seen[k] = 1
        ck.violation("the verifier's transcript differs from Transcript!VerifierItems at operation %s "
                     "(label %r, V%s, %s): expected %s, observed %s"
                     % (diff.get("at"), diff.get("label"), r["version"], tr.get("phase"),
                        json.dumps(diff.get("expected"))[:200], json.dumps(diff.get("observed"))[:200]),
                     {"key": key, "triple": r.get("replay"), "diff": diff,
                      "result": {k2: r[k2] for k2 in ("id", "kind", "family", "version", "real", "ref")}})
    n_p = 0
    pt = os.path.join(d, "prover_trace.ndjson")
    if os.path.exists(pt):
        for l in open(pt):
            r = json.loads(l)
            n_p += 1
            ck.case({"prover-transcript": [r["family"], r["phase"], r.get("version"), r.get("salt")]})
            if r.get("ok"):
                continue
            diff = r.get("diff") or {}
            key = {"site": "prove-transcript", "phase": r["phase"], "version": r.get("version"),
                   "at": diff.get("at"), "label": diff.get("label"),
                   "challenges_agree": r.get("challenges_agree")}
            if site:
                key = {"site": site, "what": "prove-transcript", "program": r["family"],
                       "at": diff.get("at"), "label": diff.get("label")}
            k = json.dumps(key, sort_keys=True)
            if k in seen:
                seen[k] += 1
                continue
            seen[k] = 1
            ck.violation("the prover's transcript differs from Transcript!ProverItems (%s, family %s, V%s) at "
                         "operation %s (label %r), or prover and verifier squeezed different challenges "
                         "(challenges_agree=%s)%s"
                         % (r["phase"], r["family"], r.get("version"), diff.get("at"), diff.get("label"),
                            r.get("challenges_agree"), (": " + r["error"]) if "error" in r else ""),
                         {"key": key, "record": r})
    ck.extra["transcripts_compared"] = {"verifier": n_cmp, "prover": n_p,
                                        "distinct_differences": {k: v for k, v in seen.items()}}
    return n_cmp, n_p


def export_items(d):
    """Transcript!VerifierItems / ProverItems (0..40 public inputs) as data.
    Produced by a cheap TLC run (no model checking of the design) and cached in
    .work under the digest of the specification files, so that it is re-exported
    whenever Transcript.tla / TranscriptMC.tla change and only then.
    Returns (path, TlcResult or None when the cache was used)."""
    import hashlib
    import shutil
    h = hashlib.sha1()
    for f in ("Transcript.tla", "TranscriptMC.tla", "TranscriptExport.cfg"):
        h.update(open(os.path.join(vlib.SPEC, f), "rb").read())
    cached = os.path.join(vlib.WORK, "items-%s.json" % h.hexdigest()[:16])
    if os.path.exists(cached):
        try:
            json.load(open(cached))
            return cached, None
        except ValueError:
            pass
    items = os.path.join(d, "items.json")
    res = vlib.tlc("TranscriptMC", cfg="TranscriptExport.cfg", workers=1, timeout=300,
                   env={"ITEMS_OUT": items})
    if res.violated or not os.path.exists(items):
        raise vlib.ToolError("item export failed:\n" + res.out[-2000:])
    tmp = cached + ".%d" % os.getpid()
    shutil.copy(items, tmp)
    os.replace(tmp, cached)
    return cached, res


def reference_check(ck, programs, tier="quick", tag="ref"):
    """Specification-driven reference verification of the caller's own honest
    programs (for the gadget checks C05, C08-C14: a consistent prover+verifier
    weakening of a widget makes the reference verifier reject honest proofs of
    circuits that contain the widget).

    ck       : the caller's vlib.Check (TLC runs are added with ck.add_tlc,
               disagreements reported with ck.violation, key
               {"site": "reference-verifier", "program": id, ...})
    programs : list of {"id": ..., "ops": [...]} (plonk_conf::prog programs;
               honest, satisfiable). Each is compiled and proved (V3, ScriptRng);
               judged: the honest triple, first public input + 1, a_eval := b_eval,
               a_comm := b_comm; plus the prover's and verifier's transcript
               operations against Transcript!ProverItems / VerifierItems.
    returns  : {"programs", "triples", "events", "disagreements",
                "transcript_differences", "skipped": [{"program","why"}], "wall_s"}
    Does not run TranscriptMC / ProtocolMC (only the item export, ~3 s)."""
    import time
    t0 = time.time()
    d = vlib.workdir("%s-%s" % (ck.pid, tag))
    items, res = export_items(d)
    if res is not None:
        ck.add_tlc(res, "TranscriptMC/export", {"MaxExport": 40}, exhaustive=False)
    # two primers: the process first meets a label EXTENDING and a label that is a PREFIX of
    # the first program's label, so the transcript comparison also sees a transcript label
    # that depends on what the process cached before (Transcript!Items starts with the label)
    if programs:
        tiny = [{"op": "witness", "v": 3, "out": "x"}, {"op": "gate", "q": {"l": 1, "c": -3}, "w": ["x"]}]
        first = str(programs[0]["id"])
        programs = [{"id": first + "+ext", "ops": tiny}, {"id": first[:-1], "ops": tiny}] + list(programs)
    stdin = "".join(json.dumps({"id": str(p["id"]), "ops": p["ops"]}, separators=(",", ":")) + "\n"
                    for p in programs)
    out = vlib.harness("refverify", ["programs", "--items", items, "--out", d], stdin=stdin, timeout=1200)
    stats = vlib.read_ndjson_text(out)[-1]
    summary = {"programs": len(programs), "triples": stats["triples"], "events": stats["events"],
               "disagreements": 0, "transcript_differences": 0, "skipped": stats["skipped"]}
    for sk in stats["skipped"]:
        ck.notes.append("reference_check: program %s not judged (%s)" % (sk["program"], sk["why"]))
    if stats["events"] == 0:
        summary["wall_s"] = round(time.time() - t0, 1)
        return summary
    results, _ = _conformance(ck, d, items, workers=4, timeout=900)
    for r in results:
        trivial = r.get("same_as_base", False)
        ck.case({"reference-verifier": [r["family"], r["kind"], r["id"]]}, nontrivial=not trivial)
        ck.traces += 1
        if r["kind"] == "honest" and r["ref"] == "accept" and r["real"] == "accept":
            continue
        if not r["agree"]:
            summary["disagreements"] += 1
            ck.violation("reference verifier and Verifier::verify disagree on the %s triple of program %s: "
                         "implementation says %s, specification says %s"
                         % (r["kind"], r["family"], r["real"], r["ref"]),
                         {"key": {"site": "reference-verifier", "program": r["family"], "kind": r["kind"],
                                  "real": r["real"].split(":")[0], "ref": r["ref"].split(":")[0]},
                          "triple": r.get("replay"), "result": r,
                          "ops": next((p["ops"] for p in programs if str(p["id"]) == r["family"]), None)})
    before = len(ck.violations) + len(ck.known)
    _account_transcripts(ck, d, results, site="reference-verifier")
    summary["transcript_differences"] = len(ck.violations) + len(ck.known) - before
    summary["wall_s"] = round(time.time() - t0, 1)
    return summary


def run(tier):
    ck = vlib.Check(PID, tier)
    d = vlib.workdir(PID)
    items = os.path.join(d, "items.json")

    # 1. transcript design + export of the item lists
    res = vlib.tlc("TranscriptMC", workers=2, timeout=600, env={"ITEMS_OUT": items})
    if res.violated:
        raise vlib.ToolError("TranscriptMC: invariant violated on the unchanged spec\n" + res.out[-3000:])
    ck.add_tlc(res, "TranscriptMC", {"MaxPI": 3, "versions": ["V1", "V2", "V3"],
                                     "roles": ["prover", "verifier"]})
    ck.never_taken += [z for z in res.coverage_zero() if "TranscriptMC" in z or "Transcript" in z]
    if not os.path.exists(items):
        raise vlib.ToolError("TranscriptMC did not export the item lists")

    # 2. verifier equation over F_97
    pp = os.path.join(d, "pmc.json")
    base, pairs = _pmc_params(tier, pp)
    res = vlib.tlc("ProtocolMC", workers=8 if tier == "quick" else 12,
                   timeout=300 if tier == "quick" else 1500, env={"PMC_PARAMS": pp})
    if res.violated:
        raise vlib.ToolError("ProtocolMC: invariant violated on the unchanged spec\n" + res.out[-3000:])
    ck.add_tlc(res, "ProtocolMC", {"P": 97, "N": [4, 8], "pairs": len(pairs),
                                   "points_per_pair": 97 * 97, "base": base})
    if res.distinct < len(pairs) * 97 * 97:
        raise vlib.ToolError("ProtocolMC explored %d states for %d pairs" % (res.distinct, len(pairs)))

    # 3. reference verifier
    out = vlib.harness("refverify", ["gen", "--tier", tier, "--items", items, "--out", d], timeout=1200)
    stats = vlib.read_ndjson_text(out)[-1]
    vlib.log("[C03] triples=%d events=%d no_event=%s" % (stats["triples"], stats["events"], stats["no_event"]))
    results, n_events = _conformance(ck, d, items, workers=8, timeout=1500)
    if len(results) != stats["triples"]:
        raise vlib.ToolError("judge returned %d results for %d triples" % (len(results), stats["triples"]))
    by = _account(ck, results)
    ck.traces += len(results)
    n_cmp, n_p = _account_transcripts(ck, d, results)
    if n_cmp < 10 or n_p < 4:
        raise vlib.ToolError("transcript comparison is vacuous: %d verifier / %d prover traces" % (n_cmp, n_p))
    ck.traces += n_cmp + n_p
    # anti-vacuity: honest proofs accepted under their own version, by both
    acc = [r for r in results if r["kind"] == "honest" and r["real"] == "accept" and r["ref"] == "accept"]
    if len(acc) < 4:
        raise vlib.ToolError("no honest proof was accepted by both verifiers: the run is vacuous")
    for r in results[:2] + acc[:2] + [r for r in results if r["kind"] == "bitflip"][:2]:
        ck.sample({k: r[k] for k in ("id", "kind", "family", "version", "real", "ref", "proof")})
    # honest proofs of one program per widget, made after the process has met labels that
    # extend / are prefixes of theirs (label primers, see reference_check)
    import gadgets
    gadgets.reference_widgets(ck, tier)
    ck.extra["triples_by_kind_version_outcome"] = {"%s/V%s/%s" % k: v for k, v in sorted(by.items())}
    ck.extra["undecodable_mutations"] = stats["no_event"]
    ck.notes.append("V1 acceptance is not exercised: no V1 prover exists (prove_with_version(V1) is "
                    "unsupported); V1 rejections of V2/V3 proofs are compared")
    ck.assumptions += ["merlin/STROBE challenge derivation, dusk-bls12_381 MSM and pairing, and the "
                       "byte decoders of group/field elements are trusted library calls"]
    return ck.finish(rule="one case per (verifier, proof, public inputs, version) triple: honest proofs of "
                          "4-5 circuit families under V1/V2/V3 verification, single-bit flips of the 1008 "
                          "proof bytes (quick: seeded tenth), each of the 26 fields replaced by the same "
                          "field of a second proof / another field of the same kind, proofs shown to "
                          "verifiers of other circuits and labels, wrong/permuted/missing/extra public "
                          "inputs; a mutation that reproduces the base proof is trivial")


def replay(path):
    """Re-runs the triple stored in a violation replay file."""
    rp = json.load(open(path))
    t = rp.get("triple")
    if not t:
        print("replay file carries no triple")
        return 2
    ck = vlib.Check(PID, "replay")
    d = vlib.workdir(PID + "-replay")
    items = os.path.join(d, "items.json")
    vlib.tlc("TranscriptMC", workers=4, timeout=600, env={"ITEMS_OUT": items})
    vlib.write_ndjson(os.path.join(d, "verifiers.ndjson"), [{"vid": 0, "family": "replay", "hex": t["verifier"]}])
    vlib.write_ndjson(os.path.join(d, "proofs.ndjson"), [{"pid": 0, "hex": t["proof"]}])
    vlib.write_ndjson(os.path.join(d, "triples.ndjson"),
                      [{"id": 0, "kind": "replay", "family": "replay", "vid": 0, "proof": {"base": 0},
                        "pis": t["pis"], "version": t["version"]}])
    vlib.harness("refverify", ["events", "--items", items, "--dir", d])
    results, _ = _conformance(ck, d, items, workers=1, timeout=600)
    for r in results:
        print(json.dumps({k: r[k] for k in ("real", "ref", "agree")}))
    return 0 if all(r["agree"] for r in results) else 1
