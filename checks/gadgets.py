"""Shared machinery of the gadget properties C07-C14 (DESIGN section 4,
"three layers per component").

layer 1  MC   GadgetSearch: the malicious-prover machine over a toy field /
              toy curve enumerates ALL satisfying assignments of the layout
              Components.tla produces; invariants Sound / Complete; weakened
              layouts must yield counterexamples (anti-vacuity).
layer 2  TV   TraceComposer: the real Composer in lock-step with
              Components.tla at NB = 255 (rows, wiring, honest values,
              returned witnesses, error classes).  A difference is
              SPEC-DRIFT: reported, recorded in the evidence, and by itself
              not a violation (a layout change does not falsify an iff).
layer 3  MBT  ScenGadgets: TLC states, from the property's relation evaluated
              over the real field / JubJub, what every scenario must do
              (provable + verifies + returned values | CircuitUnsatisfied |
              error class); prog_run executes it through the public API.
              A difference is a VIOLATION with the scenario as replay.
"""
import json
import os

import vlib

MC_WORKERS = 12


def mc_family(ck, family, tier, expect_violation=False):
    cfg = "GadgetSearch_%s%s.cfg" % (family, "_97" if tier == "thorough" else "")
    res = vlib.tlc("GadgetSearch", cfg=cfg, workers=MC_WORKERS, timeout=3000, check_error=False,
                   heap="12g")
    if res.error and not res.violated:
        raise vlib.ToolError("GadgetSearch %s failed:\n%s" % (cfg, res.out[-3000:]))
    ck.add_tlc(res, "GadgetSearch/" + cfg, {"cfg": cfg}, exhaustive=not res.violated)
    if expect_violation:
        if not res.violated:
            raise vlib.ToolError("GadgetSearch %s: expected the model to exhibit a counterexample "
                                 "(anti-vacuity / modelled finding) but none was found" % cfg)
        return res
    if res.violated:
        raise vlib.ToolError(
            "GadgetSearch %s: the SPECIFICATION's gadget violates its own relation in the toy "
            "instance (model defect or a genuine design flaw -- triage by hand):\n%s"
            % (cfg, res.out[-4000:]))
    if not res.finished:
        raise vlib.ToolError("GadgetSearch %s did not finish:\n%s" % (cfg, res.out[-2000:]))
    return res


def scenarios(ck, family, tier):
    cfg = "ScenGadgets_%s_%s.cfg" % (family, tier)
    gen = vlib.tlc("ScenGadgets", cfg=cfg, workers=4, timeout=1800, heap="6g")
    if gen.violated:
        raise vlib.ToolError("ScenGadgets %s: precondition on named points failed:\n%s" % (cfg, gen.out[-2000:]))
    sc = gen.printed_json("SCEN")
    if not sc:
        raise vlib.ToolError("ScenGadgets %s produced no scenarios" % cfg)
    ck.add_tlc(gen, "ScenGadgets/" + cfg, {"family": family, "tier": tier})
    return sc


def same(obs, exp):
    if exp["res"] == "unsat-or":
        # adversarial overrides: rejected, or (overrides without effect) the canonical value
        if obs["res"] in ("err:CircuitUnsatisfied", "err:InvalidCircuitSize"):
            return True
        return obs["res"] == "ok" and obs["verify"] == "ok" and obs["ret"] == exp["ret"]
    if exp["res"] == "ok":
        return obs["res"] == "ok" and obs["verify"] == "ok" and obs["ret"] == exp["ret"]
    if exp["res"] == "err:CircuitUnsatisfied":
        return obs["res"] == "err:CircuitUnsatisfied"
    if exp["res"] == "err:JubJubScalarMalformed":
        # the scalar is a WITNESS value: C14 demands unsatisfiability for a non-canonical scalar,
        # not the host-side guard; an entry point that emits the rows and leaves the rejection to
        # the in-circuit canonicality check still has the property (recorded as drift)
        return obs["res"].startswith("err:")
    # an entry point must return AN error (and have appended nothing); which variant it
    # returns is not part of the properties: a different class is recorded as drift
    return obs["res"].startswith("err:") and obs["res"] != "err:CircuitUnsatisfied"


def run_scenarios(ck, sc, site_of=None):
    """layer 3: execute through the public API and compare with the spec's prediction."""
    # perturb-and-propagate adversary on every honest scenario that returns witnesses:
    # one internal witness shifted, every evaluated-output row downstream recomputed
    # (generic propagation in the harness); the property demands that no such
    # assignment is ACCEPTED with other returned values
    nsweep = 10 if ck.tier == "quick" else 16
    eligible = [s for s in sc if s["expect"]["res"] == "ok" and s["expect"]["ret"] and "prove_ops" not in s]
    # thorough: the full sweep on an evenly spaced subset of at most ~400 scenarios (measured: sweeping
    # all of several thousand scenarios with 48 variants each does not finish in hours)
    stride = max(1, len(eligible) // 400) if ck.tier != "quick" else 1
    swept = set(id(s) for s in eligible[::stride])
    lines = []
    for s in sc:
        rec = {k: s[k] for k in ("id", "ops", "prove_ops") if k in s}
        # (not for calls that merely ALLOCATE what they return: `append_point` constrains
        # nothing, its coordinates are the caller's free witnesses)
        last_op = s["ops"][-1].get("op") if s["ops"] else ""
        if (s["expect"]["res"] == "ok" and s["expect"]["ret"] and "prove_ops" not in s and id(s) in swept
                and last_op not in ("append_point", "point", "witness")):
            # (the quick tier's every-width slice: two variants each; the listed widths get the full sweep)
            rec["sweep"] = {"max": 2 if s.get("every") else nsweep}
        lines.append(json.dumps(rec))
    # four harness processes side by side (each prove is itself multi-threaded)
    import concurrent.futures
    vlib.build_harness("std", "prog_run")
    shards = [lines[i::4] for i in range(4)]

    def run_shard(part):
        if not part:
            return ""
        return vlib.harness("prog_run", [], stdin="\n".join(part) + "\n", timeout=6000,
                            env={"VERIF_SEED": str(vlib.seed())})
    with concurrent.futures.ThreadPoolExecutor(max_workers=4) as ex:
        outs = list(ex.map(run_shard, shards))
    allobs = vlib.read_ndjson_text("\n".join(outs))
    obs = {e["id"]: e for e in allobs if "variant" not in e}
    by_id = {s["id"]: s for s in sc}
    nvar = 0
    for v in allobs:
        if "variant" not in v:
            continue
        nvar += 1
        s = by_id[v["id"]]
        ck.case("%s/%s/sweep-%d" % (s["g"], v["id"], v["variant"]))
        if v.get("res") == "ok" and v.get("verify") == "ok" and v["ret"] != s["expect"]["ret"]:
            ck.violation(
                "component %s: with internal witness %d shifted (and the evaluated outputs downstream "
                "recomputed) the prover proves and the verifier ACCEPTS returned values different from the "
                "documented ones" % (s["g"], v["variant"]),
                {"key": {"site": s["g"], "class": "perturb-propagate-accepted"},
                 "scenario": s, "variant": v})
        elif str(v.get("res", "")).startswith("panic"):
            ck.violation("component %s panicked on a perturbed assignment: %s" % (s["g"], v["res"]),
                         {"key": {"site": s["g"], "class": "panic"}, "scenario": s, "variant": v})
    ck.extra["perturb_propagate_variants"] = ck.extra.get("perturb_propagate_variants", 0) + nvar
    for s in sc:
        o = obs.get(s["id"])
        if o is None:
            raise vlib.ToolError("no result for scenario %s" % s["id"])
        if o["res"] == "bad":
            raise vlib.ToolError("scenario %s could not be run: %s" % (s["id"], o.get("why")))
        e = s["expect"]
        ck.case("%s/%s" % (s["g"], json.dumps({k: v for k, v in s.items() if k not in ("expect", "id")},
                                              sort_keys=True)))
        if len(ck.samples) < 6 and e["res"] != "ok":
            ck.sample({"gadget": s["g"], "ops": [op.get("op") for op in s["ops"]],
                       "n": s.get("n"), "spec_predicts": e["res"], "observed": o["res"]})
        if same(o, e) and o["res"] != e["res"] and e["res"] not in ("unsat-or",):
            ck.extra.setdefault("error_class_drift", []).append(
                {"component": s["g"], "predicted": e["res"], "observed": o["res"]})
        if not same(o, e):
            key = {"site": s["g"], "predicted": e["res"], "observed": o["res"]}
            if site_of:
                key.update(site_of(s, o))
            what = ("component %s: the relation predicts %s%s, the implementation gave res=%s verify=%s%s"
                    % (s["g"], e["res"],
                       " with returned values %s" % json.dumps(e["ret"])[:120] if e["res"] == "ok" else "",
                       o["res"], o["verify"],
                       "" if o["ret"] == e.get("ret") else " and different returned values"))
            ck.violation(what, {"key": key, "scenario": s, "observed": o})
    return obs


def composer_conformance(ck, sc, limit=None):
    """layer 2: lock-step TraceComposer; returns the list of drift descriptions."""
    # the trace specification runs on one TLC worker: bound the number of programs
    # (evenly spread over the scenario list, seeded offset) -- the budget is stated in the evidence
    limit = limit or (260 if ck.tier == "quick" else 900)
    if len(sc) > limit:
        step = len(sc) / float(limit)
        off = vlib.seed() % max(1, int(step))
        sc = [sc[min(len(sc) - 1, int(off + i * step))] for i in range(limit)]
        ck.notes.append("TraceComposer ran on %d of the programs (evenly spread sample)" % len(sc))
    d = vlib.workdir(ck.pid + "tc")
    inp = "\n".join(json.dumps({"id": s["id"], "ops": s["ops"]}) for s in sc) + "\n"
    out = vlib.harness("composer_trace", [], stdin=inp, timeout=3000)
    events = vlib.read_ndjson_text(out)
    path = os.path.join(d, "composer.ndjson")
    vlib.write_ndjson(path, events)
    tv = vlib.tlc("TraceComposer", workers=1, trace=True, env={"TRACE": path}, timeout=3000, heap="8g")
    ck.add_tlc(tv, "TraceComposer", {"NB": 255}, exhaustive=False)
    if tv.diameter - 1 != len(events):
        raise vlib.ToolError("TraceComposer consumed %d of %d lines\n%s"
                             % (tv.diameter - 1, len(events), tv.out[-3000:]))
    ck.traces += sum(1 for e in events if e.get("ev") == "begin")
    drift = []
    panics = []
    verdicts = 0
    for l in tv.out.splitlines():
        if l.startswith('"MISMATCH|'):
            f = l.strip('"').split("|")
            e = events[int(f[1]) - 1]
            drift.append({"line": int(f[1]), "op": f[2], "what": f[3], "program": e.get("id"),
                          "args": {k: v for k, v in e.get("args", {}).items() if isinstance(v, (int, bool))}})
        elif l.startswith('"VERDICT|'):
            verdicts += 1
    for e in events:
        if str(e.get("res", "")).startswith("panic"):
            panics.append(e)
    for dd in drift[:20]:
        vlib.log("SPEC-DRIFT property=%s component=%s differs-in=%s params=%s"
                 % (ck.pid, dd["op"], dd["what"], json.dumps(dd["args"])))
    ck.extra.setdefault("spec_drift", []).extend(drift[:50])
    ck.extra["composer_calls_matched"] = ck.extra.get("composer_calls_matched", 0) + verdicts
    return drift, panics, events


def reference(ck, sc, tier, limit=None):
    """Honest proofs of this check's own programs through C03's specification-driven
    reference verifier and transcript comparison: a consistent prover+verifier change of
    an atom or a weight of the widgets these programs use is a disagreement there."""
    import c03
    limit = limit or (8 if tier == "quick" else 24)
    # per component: the program with the median width / pair count first (a zero-width
    # instance emits no row of the widget and shows nothing), then the widest, then others
    groups = {}
    for s in sc:
        if s["expect"]["res"] == "ok" and "prove_ops" not in s:
            groups.setdefault(s["g"], []).append(s)
    first, second, more = [], [], []
    for g, lst in groups.items():
        lst = sorted(lst, key=lambda s: s.get("n", 0) if isinstance(s.get("n", 0), int) else 0)
        first.append(lst[len(lst) // 2])
        if lst[-1] is not lst[len(lst) // 2]:
            second.append(lst[-1])
        more.extend(x for x in lst if x is not lst[len(lst) // 2] and x is not lst[-1])
    progs = first + second[:max(0, limit - len(first))]
    progs = progs + more[:max(0, limit - len(progs))]
    progs = [{"id": str(s["id"]), "ops": s["ops"]} for s in progs[:limit]]
    if not progs:
        return None
    summary = c03.reference_check(ck, progs, tier=tier, tag="ref-" + ck.pid)
    ck.extra["reference_verifier"] = {k: summary.get(k) for k in
                                      ("programs", "triples", "disagreements", "transcript_differences")}
    return summary


# one small honest program per widget (used by checks that want the reference-verifier
# comparison on every widget without generating gadget scenarios)
WIDGET_PROGRAMS = [
    {"id": "w-arith", "ops": [{"op": "witness", "v": 7, "out": "x"}, {"op": "witness", "v": 11, "out": "y"},
                              {"op": "gate_mul", "q": {"m": 4, "f": 1, "c": -2}, "w": ["x", "y", 0, "x"], "pi": 6, "out": "p"},
                              {"op": "public", "v": 33, "out": "q"}]},
    {"id": "w-pis", "ops": [{"op": "public", "v": 11, "out": "p"}, {"op": "public", "v": 22, "out": "q"},
                            {"op": "public", "v": 0, "out": "z"},
                            {"op": "gate", "q": {"l": 1, "r": 1, "o": -1}, "w": ["p", "q", "p"], "pi": -22}]},
    {"id": "w-range", "ops": [{"op": "witness", "v": 201, "out": "x"}, {"op": "range_bits", "w": "x", "bits": 9}]},
    {"id": "w-logic", "ops": [{"op": "witness", "v": 201, "out": "a"}, {"op": "witness", "v": 77, "out": "b"},
                              {"op": "logic", "a": "a", "b": "b", "pairs": 4, "xor": True, "out": "o"}]},
    {"id": "w-fixed", "ops": [{"op": "witness", "v": 12345, "out": "s"},
                              {"op": "mul_generator", "s": "s", "pt": {"name": "G"}, "out": "R"}]},
    {"id": "w-var", "ops": [{"op": "append_constant_point", "pt": {"mul": 3, "of": {"name": "G"}}, "out": "P"},
                            {"op": "append_constant_point", "pt": {"mul": 9, "of": {"name": "G"}}, "out": "Q"},
                            {"op": "add_point", "a": "P", "b": "Q", "out": "R"}]},
]


def reference_widgets(ck, tier):
    import c03
    summary = c03.reference_check(ck, WIDGET_PROGRAMS, tier=tier, tag="ref-" + ck.pid)
    ck.extra["reference_verifier"] = {k: summary.get(k) for k in
                                      ("programs", "triples", "disagreements", "transcript_differences")}
    return summary


def standard(pid, tier, mc, weak, scen, notes=None, site_of=None, extra_scen=None, mc_expect_violation=()):
    ck = vlib.Check(pid, tier)
    ck.assumptions = [
        "field / curve / pairing arithmetic of dusk-bls12_381 and dusk-jubjub is trusted",
        "BigF Java override == its TLA+ definition (cross-checked by setup)",
        "exhaustiveness is over the toy instance (F_29 / F_97 and a cofactor-8 toy curve) of the "
        "same parametric construction; the real instance is tied to the same Components.tla by "
        "TraceComposer, not by proof",
    ]
    # ---- all model-checking and scenario-generation TLC runs of this check, concurrently
    sfx = "_97" if tier == "thorough" else ""
    jobs, kinds = [], []
    for fam in list(mc) + list(mc_expect_violation):
        cfg = "GadgetSearch_%s%s.cfg" % (fam, sfx)
        jobs.append(dict(module="GadgetSearch", cfg=cfg, workers=4, timeout=3000 if tier == "quick" else 6000, check_error=False, heap="8g"))
        kinds.append(("mc", fam, cfg))
    for cfgname in weak:
        cfg = "GadgetSearch_%s.cfg" % cfgname
        jobs.append(dict(module="GadgetSearch", cfg=cfg, workers=2, timeout=900, check_error=False, heap="4g"))
        kinds.append(("weak", cfgname, cfg))
    for fam in scen:
        cfg = "ScenGadgets_%s_%s.cfg" % (fam, tier)
        jobs.append(dict(module="ScenGadgets", cfg=cfg, workers=2, timeout=3000, heap="4g"))
        kinds.append(("scen", fam, cfg))
    results = vlib.tlc_many(jobs, max_parallel=8)
    all_sc = []
    for (kind, name, cfg), res in zip(kinds, results):
        if kind == "mc":
            if res.error and not res.violated:
                raise vlib.ToolError("GadgetSearch %s failed:\n%s" % (cfg, res.out[-3000:]))
            ck.add_tlc(res, "GadgetSearch/" + cfg, {"cfg": cfg}, exhaustive=not res.violated)
            if name in mc_expect_violation:
                if not res.violated:
                    raise vlib.ToolError("GadgetSearch %s: the model was expected to exhibit a counterexample "
                                         "(modelled finding) but none was found" % cfg)
                ck.notes.append("model exhibits the modelled finding: GadgetSearch %s violates Sound" % cfg)
            elif res.violated:
                raise vlib.ToolError(
                    "GadgetSearch %s: the SPECIFICATION's gadget violates its own relation in the toy "
                    "instance (model defect or a genuine design flaw -- triage by hand):\n%s" % (cfg, res.out[-4000:]))
            elif not res.finished:
                raise vlib.ToolError("GadgetSearch %s did not finish:\n%s" % (cfg, res.out[-2000:]))
        elif kind == "weak":
            if not res.violated:
                raise vlib.ToolError("anti-vacuity: weakened layout %s was not refuted by the search" % name)
            ck.add_tlc(res, "GadgetSearch/weak/" + name, {"weakened": name}, exhaustive=False)
            ck.notes.append("anti-vacuity: GadgetSearch finds a counterexample on weakened layout '%s'" % name)
        else:
            if res.violated:
                raise vlib.ToolError("ScenGadgets %s: precondition on named points failed:\n%s" % (cfg, res.out[-2000:]))
            sc = res.printed_json("SCEN")
            if not sc:
                raise vlib.ToolError("ScenGadgets %s produced no scenarios:\n%s" % (cfg, res.out[-2000:]))
            ck.add_tlc(res, "ScenGadgets/" + cfg, {"family": name, "tier": tier})
            for s in sc:
                s["id"] = "%s-%s" % (name, s["id"])
            all_sc.extend(sc)
    if extra_scen:
        all_sc.extend(extra_scen(ck, tier))
    run_scenarios(ck, all_sc, site_of)
    reference(ck, all_sc, tier)
    drift, panics, _ = composer_conformance(ck, all_sc)
    for e in panics:
        ck.violation("component %s panicked: %s" % (e.get("op"), e.get("res")),
                     {"key": {"site": e.get("op"), "class": "panic"}, "event": e})
    if notes:
        ck.notes.extend(notes)
    return ck.finish(
        rule="MC: one state per partial assignment of the malicious-prover search (all satisfying "
             "assignments of the toy instance); MBT: one case per TLC-generated scenario (component, "
             "width, input values at 255 bits; honest inputs, adversarial programs / override maps, and "
             "perturb-and-propagate variants) executed through compile/prove/verify and compared with "
             "the relation's prediction; distinct = distinct (component, parameters, inputs); TV: every "
             "composer call of those programs matched against Components.tla; honest proofs also judged "
             "by the specification-driven reference verifier")
