"""Shared driver machinery for /verif/bin/check.

Exit codes of a check: 0 = held on everything explored (KNOWN-FINDING lines
allowed), 1 = at least one `VIOLATION property=<id> replay=<path>` line,
2 = tool error / timeout / vacuous run (never reported as a violation).
"""
import fcntl
import json
import os
import re
import shutil
import subprocess
import sys
import time

VERIF = os.path.dirname(os.path.dirname(os.path.abspath(__file__)))
SPEC = os.path.join(VERIF, "spec")
HARNESS = os.path.join(VERIF, "harness")
WORK = os.path.join(VERIF, ".work")
REPLAYS = os.path.join(VERIF, "replays")
EVIDENCE = os.path.join(VERIF, "evidence")
if os.environ.get("VERIF_REPO", "/repo").rstrip("/") != "/repo":
    # development runs against a scratch copy never touch the committed evidence
    EVIDENCE = os.path.join(WORK, "evidence-scratch")
TLA_JAR = "/opt/veriftools/tla/tla2tools.jar"
COMMUNITY = "/opt/veriftools/tla/CommunityModules-deps.jar"


class ToolError(Exception):
    pass


def log(msg):
    print(msg, flush=True)


def seed():
    try:
        return int(os.environ.get("VERIF_SEED", "1"))
    except ValueError:
        return 1


class Lock:
    """Serialises the heavy phases (cargo, TLC) of concurrently started checks."""

    def __init__(self, name="lock"):
        os.makedirs(WORK, exist_ok=True)
        self.path = os.path.join(WORK, name)
        self.fd = None

    def __enter__(self):
        self.fd = open(self.path, "w")
        fcntl.flock(self.fd, fcntl.LOCK_EX)
        return self

    def __exit__(self, *a):
        fcntl.flock(self.fd, fcntl.LOCK_UN)
        self.fd.close()


def run(cmd, cwd=None, env=None, timeout=None, stdin=None):
    e = dict(os.environ)
    if env:
        e.update(env)
    try:
        p = subprocess.run(cmd, cwd=cwd, env=e, timeout=timeout, input=stdin,
                           stdout=subprocess.PIPE, stderr=subprocess.PIPE, text=True)
    except subprocess.TimeoutExpired as ex:
        out = ex.stdout or ""
        if isinstance(out, bytes):
            out = out.decode(errors="replace")
        raise ToolError("timeout after %ss: %s\n%s" % (timeout, " ".join(cmd[:6]), out[-2000:]))
    return p.returncode, p.stdout, p.stderr


# ---------------------------------------------------------------- harness ---

_built = {}


def _harness_dir():
    """The harness crate to build. Normally /verif/harness (path dependency on
    /repo). With VERIF_REPO=<dir> (development aid: a scratch copy of the
    repository carrying a mutant) a shadow crate under .work/ is used whose
    manifest points at that directory; sources are shared by symlink."""
    repo = os.environ.get("VERIF_REPO", "/repo").rstrip("/")
    if repo == "/repo":
        return HARNESS
    import hashlib
    tag = hashlib.sha1(repo.encode()).hexdigest()[:10]
    d = os.path.join(WORK, "harness-" + tag)
    os.makedirs(os.path.join(d, ".cargo"), exist_ok=True)
    man = open(os.path.join(HARNESS, "Cargo.toml")).read().replace('path = "/repo"', 'path = "%s"' % repo)
    mp = os.path.join(d, "Cargo.toml")
    if not os.path.exists(mp) or open(mp).read() != man:
        open(mp, "w").write(man)
    shutil.copy(os.path.join(HARNESS, "Cargo.lock"), os.path.join(d, "Cargo.lock"))
    shutil.copy(os.path.join(HARNESS, ".cargo", "config.toml"), os.path.join(d, ".cargo", "config.toml"))
    link = os.path.join(d, "src")
    if not os.path.islink(link):
        os.symlink(os.path.join(HARNESS, "src"), link)
    return d


def build_harness(variant="std", binary=None):
    """cargo build of the harness (one binary, or everything) against /repo's
    current working tree."""
    key = (variant, binary)
    if key in _built:
        return _built[key]
    if (variant, None) in _built:
        return _built[(variant, None)]
    hdir = _harness_dir()
    with Lock("cargo.lock"):
        t0 = time.time()
        if variant == "std":
            cmd = ["cargo", "build", "--release", "--offline"]
            tdir = os.path.join(hdir, "target")
        else:
            cmd = ["cargo", "build", "--release", "--offline", "--no-default-features",
                   "--features", "serial", "--target-dir", "target-serial"]
            tdir = os.path.join(hdir, "target-serial")
        if binary:
            cmd += ["--bin", binary]
        rc, out, err = run(cmd, cwd=hdir, timeout=1800,
                           env={"CARGO_NET_OFFLINE": "true"})
        if rc != 0:
            raise ToolError("harness build failed (%s):\n%s" % (variant, err[-4000:]))
        log("[build] harness(%s%s) ok in %.1fs" % (variant, "/" + binary if binary else "", time.time() - t0))
    _built[key] = os.path.join(tdir, "release")
    return _built[key]


def harness(binary, args, stdin=None, timeout=1800, variant="std", env=None):
    """Runs a harness binary; returns stdout. Non-zero exit is a tool error."""
    d = build_harness(variant, binary)
    t0 = time.time()
    rc, out, err = run([os.path.join(d, binary)] + [str(a) for a in args],
                       stdin=stdin, timeout=timeout, env=env, cwd=VERIF)
    log("[harness] %s %s %.1fs" % (binary, " ".join(str(a) for a in args[:3]), time.time() - t0))
    if rc != 0:
        raise ToolError("harness %s %s exited %d:\n%s\n%s" % (binary, args, rc, out[-2000:], err[-4000:]))
    return out


# -------------------------------------------------------------------- TLC ---

def ensure_bigf():
    cls = os.path.join(SPEC, "BigF.class")
    src = os.path.join(SPEC, "BigF.java")
    if not os.path.exists(cls) or os.path.getmtime(cls) < os.path.getmtime(src):
        with Lock("javac.lock"):
            rc, out, err = run(["javac", "-cp", TLA_JAR, "-d", SPEC, src], timeout=300)
            if rc != 0:
                raise ToolError("javac BigF failed:\n" + err)


class TlcResult:
    def __init__(self, rc, out, wall):
        self.rc = rc
        self.out = out
        self.wall = wall
        self.generated = 0
        self.distinct = 0
        self.diameter = 0
        m = re.findall(r"(\d+) states generated, (\d+) distinct states found", out)
        if m:
            self.generated, self.distinct = int(m[-1][0]), int(m[-1][1])
        m = re.findall(r"depth of the complete state graph search is (\d+)", out)
        if m:
            self.diameter = int(m[-1])
        self.violated = ("is violated" in out) or ("Invariant" in out and "violated" in out)
        self.error = ("Error:" in out) and not self.violated
        self.finished = "Model checking completed" in out or "Finished computing" in out

    def printed(self, tag):
        """Values printed with PrintT(<<tag, ...>>) -- raw lines containing the tag."""
        return [l for l in self.out.splitlines() if l.startswith('<<"%s"' % tag)]

    def printed_json(self, tag):
        """JSON payloads printed with PrintT(<<tag, ..., ToJson(x)>>): the last
        string literal on each tagged line, parsed."""
        out = []
        for l in self.out.splitlines():
            if not l.startswith('<<"%s"' % tag):
                continue
            i = l.find('"{')
            j = l.rfind('}"')
            if i < 0 or j < 0:
                continue
            out.append(json.loads(json.loads(l[i:j + 2])))
        return out

    def coverage_zero(self):
        """Actions/ops reported by -coverage with zero count (module-level lines)."""
        zero = []
        for l in self.out.splitlines():
            m = re.match(r"^<(\w+) line (\d+), col \d+ to line \d+, col \d+ of module (\w+)>: (\d+):(\d+)", l)
            if m and int(m.group(4)) == 0 and int(m.group(5)) == 0:
                zero.append("%s@%s:%s" % (m.group(1), m.group(3), m.group(2)))
        return zero


def tlc(module, cfg=None, workers=8, timeout=900, env=None, trace=False, extra=None,
        heap="8g", meta=None, coverage=False, simulate=None, check_error=True, _nolock=False):
    """Runs TLC on spec/<module>.tla with spec/<cfg> (default <module>.cfg)."""
    ensure_bigf()
    cfg = cfg or (module + ".cfg")
    import threading
    meta = meta or os.path.join(WORK, "tlc-%s-%s-%d-%d" % (module, os.path.splitext(os.path.basename(cfg))[0],
                                                        os.getpid(), threading.get_ident() % 100000))
    shutil.rmtree(meta, ignore_errors=True)
    os.makedirs(meta, exist_ok=True)
    jopts = "-Xss1g"
    if trace:
        jopts += " -Dtlc2.tool.queue.IStateQueue=StateDeque"
    # -Xss on the command line (not only JAVA_TOOL_OPTIONS) also enlarges the main
    # thread's stack: initial-state invariants and constant definitions run there
    cmd = ["java", "-Xss1g", "-Xmx" + heap, "-XX:+UseParallelGC",
           "-cp", "%s:%s:%s" % (TLA_JAR, COMMUNITY, SPEC),
           "tlc2.TLC", "-workers", str(1 if trace else workers),
           "-metadir", meta, "-cleanup", "-noGenerateSpecTE",
           "-config", cfg]
    if coverage:
        cmd += ["-coverage", "1"]
    if simulate:
        cmd += ["-simulate", simulate]
    if extra:
        cmd += extra
    cmd += [module + ".tla"]
    e = {"JAVA_TOOL_OPTIONS": jopts}
    if env:
        e.update(env)
    if _nolock:
        t0 = time.time()
        rc, out, err = run(cmd, cwd=SPEC, env=e, timeout=timeout)
    else:
        with Lock("tlc.lock"):
            t0 = time.time()            # wall time of the run itself, not of the wait for the lock
            rc, out, err = run(cmd, cwd=SPEC, env=e, timeout=timeout)
    shutil.rmtree(meta, ignore_errors=True)
    res = TlcResult(rc, out + "\n" + err, time.time() - t0)
    log("[tlc] %s/%s %.1fs distinct=%d" % (module, cfg, res.wall, res.distinct))
    if check_error and (res.error or (rc != 0 and not res.violated)):
        raise ToolError("TLC %s/%s failed (rc=%d):\n%s" % (module, cfg, rc, res.out[-6000:]))
    return res


def tlc_many(jobs, max_parallel=6):
    """Runs several independent TLC jobs concurrently (one lock acquisition for the
    whole batch). Each job is a dict of keyword arguments of `tlc` (module, cfg,
    workers, timeout, env, trace, heap, check_error, coverage). Returns the
    TlcResult list in job order; raises ToolError like `tlc` (after all finished)."""
    import concurrent.futures
    ensure_bigf()
    results = [None] * len(jobs)
    errors = []

    def one(i):
        j = dict(jobs[i])
        j["_nolock"] = True
        try:
            results[i] = tlc(**j)
        except ToolError as e:
            errors.append(e)

    with Lock("tlc.lock"):
        with concurrent.futures.ThreadPoolExecutor(max_workers=max_parallel) as ex:
            list(ex.map(one, range(len(jobs))))
    if errors:
        raise errors[0]
    return results


def find_community():
    global COMMUNITY
    if os.path.exists(COMMUNITY):
        return
    for root in ("/opt/veriftools/tla",):
        for f in os.listdir(root):
            if "ommunity" in f and f.endswith(".jar"):
                COMMUNITY = os.path.join(root, f)
                return
    COMMUNITY = TLA_JAR


find_community()


# --------------------------------------------------------------- evidence ---

class Check:
    """Accumulates what a check covered and produces evidence + exit status."""

    def __init__(self, pid, tier):
        self.pid = pid
        self.tier = tier
        self.t0 = time.time()
        self.states = 0
        self.transitions = 0
        self.traces = 0
        self.evaluations = 0
        self.distinct = set()
        self.samples = []
        self.mc_configs = []
        self.violations = []
        self.known = []
        self.notes = []
        self.assumptions = []
        self.extra = {}
        self.never_taken = []
        kf = os.path.join(VERIF, "known-findings.json")
        self.known_findings = []
        if os.path.exists(kf):
            self.known_findings = [f for f in json.load(open(kf)).get("findings", [])
                                   if f.get("property") == pid and f.get("status") == "known"]

    def add_tlc(self, res, name, constants=None, exhaustive=True):
        self.states += res.distinct
        self.transitions += res.generated
        self.mc_configs.append({"name": name, "constants": constants or {},
                                "distinct_states": res.distinct, "states_generated": res.generated,
                                "depth": res.diameter, "exhaustive": bool(exhaustive and res.finished),
                                "wall_s": round(res.wall, 1)})

    def sample(self, s, limit=6):
        if len(self.samples) < limit:
            self.samples.append(s)

    def case(self, key, nontrivial=True):
        self.evaluations += 1
        if nontrivial:
            self.distinct.add(key if isinstance(key, str) else json.dumps(key, sort_keys=True))

    def match_known(self, key):
        """key: dict describing the failing case; returns the matching finding or None."""
        for f in self.known_findings:
            m = f.get("match", {})
            if all(_match(key.get(k), v) for k, v in m.items()):
                return f
        return None

    def violation(self, what, replay):
        """Registers a violation unless it is a listed known finding."""
        key = replay.get("key", {})
        f = self.match_known(key)
        if f is not None:
            line = "KNOWN-FINDING: property=%s %s" % (self.pid, f.get("what", what))
            if line not in self.known:
                self.known.append(line)
                log(line)
            return False
        os.makedirs(REPLAYS, exist_ok=True)
        n = len(self.violations) + 1
        if n > 25:
            # enough replay files; keep counting
            self.violations.append(self.violations[-1])
            return True
        path = os.path.join(REPLAYS, "%s-%d-%d.json" % (self.pid, os.getpid(), n))
        replay = dict(replay)
        replay["property"] = self.pid
        replay["what"] = what
        json.dump(replay, open(path, "w"), indent=1)
        self.violations.append(path)
        log("VIOLATION property=%s replay=%s" % (self.pid, path))
        log("  " + what[:400])
        return True

    def finish(self, rule, level="model_checking"):
        os.makedirs(EVIDENCE, exist_ok=True)
        cov = {
            "states": self.states,
            "transitions": self.transitions,
            "traces_validated_against_impl": self.traces,
            "samples": self.samples or ["(none)"],
            "evaluations": self.evaluations,
            "distinct_nontrivial": len(self.distinct),
            "rule": rule,
            "mc_configs": self.mc_configs,
            "coverage_never_taken": self.never_taken,
            "exhaustive": all(c["exhaustive"] for c in self.mc_configs) if self.mc_configs else False,
            "known_findings_reported": self.known,
            "notes": self.notes,
        }
        cov.update(self.extra)
        ev = {
            "property_id": self.pid,
            "tier": self.tier,
            "seed": seed(),
            "level": level,
            "coverage": cov,
            "assumptions": self.assumptions,
            "wall_s": round(time.time() - self.t0, 1),
            "violations": len(self.violations),
        }
        json.dump(ev, open(os.path.join(EVIDENCE, self.pid + ".json"), "w"), indent=1)
        log("[%s] tier=%s states=%d transitions=%d traces=%d evaluations=%d distinct=%d violations=%d wall=%.0fs"
            % (self.pid, self.tier, self.states, self.transitions, self.traces, self.evaluations,
               len(self.distinct), len(self.violations), time.time() - self.t0))
        return 1 if self.violations else 0


def _match(actual, pattern):
    if isinstance(pattern, list):
        return actual in pattern
    if isinstance(pattern, dict) and "min" in pattern:
        return actual is not None and actual >= pattern["min"]
    return actual == pattern


def workdir(pid):
    d = os.path.join(WORK, "%s-%d" % (pid, os.getpid()))
    shutil.rmtree(d, ignore_errors=True)
    os.makedirs(d, exist_ok=True)
    return d


def write_ndjson(path, records):
    with open(path, "w") as f:
        for r in records:
            f.write(json.dumps(r, separators=(",", ":")) + "\n")


def read_ndjson_text(text):
    out = []
    for l in text.splitlines():
        l = l.strip()
        if l.startswith("{"):
            out.append(json.loads(l))
    return out
