// Seeded-mutant demo for C14: the band [r, 2^252) of non-canonical scalars
// must be rejected by component_mul_generator.
use dusk_plonk::prelude::*;

fn rejects(s: BlsScalar) -> bool {
    let mut composer = Composer::initialized();
    let w = composer.append_witness(s);
    matches!(
        composer.component_mul_generator(w, dusk_jubjub::GENERATOR_EXTENDED),
        Err(Error::JubJubScalarMalformed)
    )
}

#[test]
fn c14_rejects_scalars_between_r_and_2_pow_252() {
    let r = BlsScalar::from(-JubJubScalar::one()) + BlsScalar::one();
    let two_252_minus_1 = BlsScalar::from(2u64).pow(&[252, 0, 0, 0]) - BlsScalar::one();
    assert!(rejects(r), "s = r accepted");
    assert!(rejects(r + BlsScalar::from(5u64)), "s = r + 5 accepted");
    assert!(rejects(two_252_minus_1), "s = 2^252 - 1 accepted");
    // sanity: r - 1 is canonical
    assert!(!rejects(r - BlsScalar::one()));
}
